package main

import (
	"sort"
	"fmt"
	"go/token"
	"strings"

	"golang.org/x/tools/go/ssa"
)

func init() { register("C45", "other", checkC45) }

const pkgIdoc = rootModPath + "/pkg/idoc"

func checkC45(c *Ctx, r *Report) {
	r.Explanation = "Decides structural necessary conditions of the IDoc explode contract inside ExplodeXML: (R1) the element stack is pushed exactly once per StartElement and popped exactly once per EndElement with a non-empty stack; result.Segments has exactly one writer, an append of the closing frame's segment at the end of the list, and every path of the EndElement case that popped a frame passes through it before the next token — one entry per element, in closing order; a result with a nil error is returned only after the token read reported io.EOF; (R2) each routed list (Items, Partners, Statuses, Dates) has exactly one writer, an append of that same segment, guarded by the membership test of its own set keyed by the segment's name, and reaching it does not depend on the outcome of another set's test (a first-match chain fails this); the set fields are built from the like-named configuration lists; (R3) the only write into a Fields map goes through the frame that is on top of the stack after the pop (the direct parent), with the closing element's name as key and its trimmed text as value, under the guard that this text is non-empty, and a path from the pop to the Segments append avoids that write only on the edges 'text empty', 'no parent' or 'parent collects no fields'; a frame gets a Fields map only when isRouted, which consults all four sets. R2 exposed the first-match routing repaired by d611875."
	r.NotCovered = "the XML decoder's tokenisation (Strict=false, HTML auto-close) on input that is not well formed; JSON rendering in ToTopicRecords"
	m, err := c.Mod("root")
	if err != nil {
		r.unresolved("C45.load", "root module", err.Error())
		return
	}
	r.rule("C45.R1", "one Segments entry per closed element, appended in closing order; balanced push/pop; success only at end of input", 5)
	r.rule("C45.R2", "independent routing: each list is fed by its own set's membership test only", 9)
	r.rule("C45.R3", "Fields: direct children with non-empty trimmed text, written through the parent frame", 4)

	fn := needFn(m, r, "C45.R1", pkgIdoc, "ExplodeXML")
	if fn == nil {
		return
	}
	resT := pkgIdoc + ".Result"
	// the token loop header: the block that calls decoder.Token
	var tokCall *ssa.Call
	for _, call := range findCalls(fn, "(*encoding/xml.Decoder).Token") {
		tokCall, _ = call.(*ssa.Call)
	}
	if tokCall == nil {
		r.unresolved("C45.R1", "ExplodeXML: token loop", "decoder.Token call not found")
		return
	}
	isTok := func(t ssa.Instruction) bool { return t == ssa.Instruction(tokCall) }

	// case entry blocks of the type switch
	caseEntry := func(typ string) *ssa.BasicBlock {
		for _, b := range fn.Blocks {
			for _, in := range b.Instrs {
				ta, ok := in.(*ssa.TypeAssert)
				if !ok || !strings.HasSuffix(ta.AssertedType.String(), typ) {
					continue
				}
				if ifi, ok := b.Instrs[len(b.Instrs)-1].(*ssa.If); ok {
					return ifi.Block().Succs[0]
				}
			}
		}
		return nil
	}
	startB, endB := caseEntry("xml.StartElement"), caseEntry("xml.EndElement")
	if startB == nil || endB == nil {
		r.unresolved("C45.R1", "ExplodeXML: type switch cases", "StartElement / EndElement case not found")
		return
	}

	// writers of each result list
	type listW struct {
		app   *ssa.Call
		store *ssa.Store
	}
	writers := map[string][]listW{}
	for _, b := range fn.Blocks {
		for _, in := range b.Instrs {
			st, ok := in.(*ssa.Store)
			if !ok {
				continue
			}
			fa, ok := st.Addr.(*ssa.FieldAddr)
			if !ok {
				continue
			}
			t, f, _, ok := fieldAddrInfo(fa)
			if !ok || t != resT {
				continue
			}
			switch f {
			case "Segments", "Items", "Partners", "Statuses", "Dates":
				app, _ := strip(st.Val).(*ssa.Call)
				writers[f] = append(writers[f], listW{app, st})
			}
		}
	}
	// the segment value appended to Segments
	var segAlloc *ssa.Alloc
	elemOf := func(app *ssa.Call) (*ssa.Alloc, bool) {
		// append(load(result.F), [seg]...) where the base is the same field's current value
		if app == nil || calleeName(&app.Call) != "builtin.append" {
			return nil, false
		}
		for _, s := range appendSites(fn, "") {
			if s.Call == app {
				if s.Elem == nil {
					return nil, false
				}
				if u, ok := strip(s.Elem).(*ssa.UnOp); ok {
					if al, ok := u.X.(*ssa.Alloc); ok {
						return copySource(al), true
					}
				}
			}
		}
		return nil, false
	}
	baseIsField := func(app *ssa.Call, field string) bool {
		_, f, _, ok := fieldOf(app.Call.Args[0])
		return ok && f == field
	}

	// ---- R1
	{
		key := "result.Segments has one writer: an append of the closing frame's segment, in closing order"
		ws := writers["Segments"]
		switch {
		case len(ws) != 1:
			r.viol("C45.R1", key, m.Pos(fn.Pos()), fmt.Sprintf("%d writers of result.Segments", len(ws)))
		default:
			al, ok := elemOf(ws[0].app)
			if !ok || !baseIsField(ws[0].app, "Segments") {
				r.viol("C45.R1", key, m.Pos(ws[0].store.Pos()), "the value stored is not append(result.Segments, seg)")
			} else {
				segAlloc = al
				r.ok("C45.R1", key, m.Pos(ws[0].store.Pos()), "")
			}
		}
		// every EndElement path that popped reaches the append before the next token
		if len(ws) == 1 && ws[0].app != nil {
			key = "every closed element reaches the Segments append before the next token"
			var pop *ssa.Slice
			for _, b := range fn.Blocks {
				if !endB.Dominates(b) {
					continue
				}
				for _, in := range b.Instrs {
					if sl, ok := in.(*ssa.Slice); ok && strings.HasSuffix(sl.Type().String(), "segmentFrame") && sl.High != nil {
						pop = sl
					}
				}
			}
			if pop == nil {
				r.viol("C45.R1", key, m.Pos(endB.Instrs[0].Pos()), "no pop of the element stack in the EndElement case")
			} else {
				found, _, path := search(SearchSpec{Start: nextLoc(pop), Target: isTok,
					Blocker: func(t ssa.Instruction) bool { return t == ssa.Instruction(ws[0].app) }})
				if found {
					r.viol("C45.R1", key, m.Pos(pop.Pos()), "a path from the pop to the next token skips the append: "+renderPath(m, path))
				} else {
					r.ok("C45.R1", key, m.Pos(pop.Pos()), "")
				}
				// the pop removes exactly the top frame, and is unconditional once the stack is non-empty
				key = "EndElement pops exactly the top frame whenever the stack is non-empty"
				okPop := false
				if terms, k := flattenSum(pop.High); len(terms) == 1 && k == -1 && pop.Low == nil {
					if lc, ok := strip(terms[0]).(*ssa.Call); ok && calleeName(&lc.Call) == "builtin.len" && strip(lc.Call.Args[0]) == strip(pop.X) {
						okPop = true
					}
				}
				g := Guard{}
				_ = g
				// reaching the pop from the case entry: only the empty-stack test may divert
				found2, _, path2 := search(SearchSpec{Start: Loc{endB, 0}, Target: isTok,
					Blocker: func(t ssa.Instruction) bool { return t == ssa.Instruction(pop) },
					Removed: func(from *ssa.BasicBlock, succ int) bool {
						ifi, ok := from.Instrs[len(from.Instrs)-1].(*ssa.If)
						if !ok || succ != 0 {
							return false
						}
						bo, ok := ifi.Cond.(*ssa.BinOp)
						if !ok || bo.Op != token.EQL {
							return false
						}
						k, okk := constInt(bo.Y)
						lc, okc := strip(bo.X).(*ssa.Call)
						return okk && k == 0 && okc && calleeName(&lc.Call) == "builtin.len"
					}})
				switch {
				case !okPop:
					r.viol("C45.R1", key, m.Pos(pop.Pos()), "the stack is cut at "+describe(pop.High)+", not at len-1")
				case found2:
					r.viol("C45.R1", key, m.Pos(pop.Pos()), "an EndElement with a non-empty stack can skip the pop: "+renderPath(m, path2))
				default:
					r.ok("C45.R1", key, m.Pos(pop.Pos()), "")
				}
			}
		}
		// push: exactly one append to the stack in the StartElement case, on every path
		key = "StartElement pushes exactly one frame on every path"
		var pushes []*ssa.Call
		for _, s := range appendSites(fn, "segmentFrame") {
			pushes = append(pushes, s.Call)
		}
		if len(pushes) != 1 || !startB.Dominates(pushes[0].Block()) {
			r.viol("C45.R1", key, m.Pos(startB.Instrs[0].Pos()), fmt.Sprintf("%d appends to the element stack", len(pushes)))
		} else {
			found, _, path := search(SearchSpec{Start: Loc{startB, 0}, Target: isTok,
				Blocker: func(t ssa.Instruction) bool { return t == ssa.Instruction(pushes[0]) }})
			if found {
				r.viol("C45.R1", key, m.Pos(pushes[0].Pos()), "a StartElement path skips the push: "+renderPath(m, path))
			} else {
				r.ok("C45.R1", key, m.Pos(pushes[0].Pos()), "")
			}
		}
	}

	// a successful result is handed back only at the end of the input: every return with a nil error
	// has passed `err == io.EOF` for the token read (an early success return drops every element that
	// closes later)
	{
		eof := Guard{cl(atomFn("token error == io.EOF", func(l Lit) bool {
			if l.Op != token.EQL {
				return false
			}
			isTokErr := func(v ssa.Value) bool {
				ex, ok := strip(v).(*ssa.Extract)
				return ok && ex.Tuple == ssa.Value(tokCall) && ex.Index == 1
			}
			isEOF := func(v ssa.Value) bool {
				u, ok := strip(v).(*ssa.UnOp)
				if !ok {
					return false
				}
				g, ok := u.X.(*ssa.Global)
				return ok && g.Name() == "EOF" && g.Pkg != nil && g.Pkg.Pkg.Path() == "io"
			}
			return (isTokErr(l.X) && isEOF(l.Y)) || (isTokErr(l.Y) && isEOF(l.X))
		}))}
		n := 0
		for _, b := range fn.Blocks {
			ret, ok := b.Instrs[len(b.Instrs)-1].(*ssa.Return)
			if !ok || len(ret.Results) != 2 || !isNilConst(ret.Results[1]) {
				continue
			}
			n++
			guardVerdict(m, r, "C45.R1", fmt.Sprintf("ExplodeXML returns a result only at the end of the input [%d]", n), fn, ret, eof)
		}
		if n == 0 {
			r.unresolved("C45.R1", "ExplodeXML success return", "not found")
		}
	}

	// ---- R2
	routes := []struct{ list, set, cfg string }{
		{"Items", "items", "ItemSegments"}, {"Partners", "partners", "PartnerSegments"},
		{"Statuses", "statuses", "StatusSegments"}, {"Dates", "dates", "DateSegments"},
	}
	// membership tests: If on Lookup(load segmentSets.<set>, key)
	type test struct {
		ifi *ssa.If
		lk  *ssa.Lookup
	}
	tests := map[string][]test{}
	for _, b := range fn.Blocks {
		ifi, ok := b.Instrs[len(b.Instrs)-1].(*ssa.If)
		if !ok {
			continue
		}
		lk, ok := strip(ifi.Cond).(*ssa.Lookup)
		if !ok {
			continue
		}
		if _, f, _, ok := fieldOf(lk.X); ok {
			tests[f] = append(tests[f], test{ifi, lk})
		}
	}
	for _, rt := range routes {
		key := "result." + rt.list + " is fed only by the membership test of the " + rt.set + " set"
		ws := writers[rt.list]
		if len(ws) != 1 || ws[0].app == nil {
			r.viol("C45.R2", key, m.Pos(fn.Pos()), fmt.Sprintf("%d writers of result.%s", len(ws), rt.list))
			continue
		}
		app := ws[0].app
		al, ok := elemOf(app)
		var problems []string
		if !ok || !baseIsField(app, rt.list) {
			problems = append(problems, "the value stored is not append(result."+rt.list+", seg)")
		} else if segAlloc != nil && al != segAlloc {
			problems = append(problems, "the appended segment is not the one appended to result.Segments")
		}
		// own guard
		own := Guard{cl(atomFn(rt.set+"[seg.Name]", func(l Lit) bool {
			lk, ok := strip(l.X).(*ssa.Lookup)
			if !ok || l.Neg {
				return false
			}
			_, f, _, okf := fieldOf(lk.X)
			if !okf || f != rt.set {
				return false
			}
			// key: the Name of the segment that is appended
			_, kf, kb, okk := fieldOf(lk.Index)
			return okk && kf == "Name" && (segAlloc == nil || copySourceV(canonBase(kb)) == ssa.Value(segAlloc) || copySourceV(strip(kb)) == ssa.Value(segAlloc))
		}))}
		if res := checkGuarded(m, fn, app, own); !res.OK {
			problems = append(problems, "not guarded by "+rt.set+"[seg.Name]: "+res.String())
		}
		// independence from the other sets' tests
		for _, other := range routes {
			if other.set == rt.set {
				continue
			}
			for _, ts := range tests[other.set] {
				reach := func(succ int) bool {
					found, _, _ := search(SearchSpec{Start: Loc{ts.ifi.Block().Succs[succ], 0},
						Target:  func(t ssa.Instruction) bool { return t == ssa.Instruction(app) },
						Blocker: isTok})
					return found
				}
				t, f := reach(0), reach(1)
				if t != f {
					which := "false"
					if t {
						which = "true"
					}
					problems = append(problems, fmt.Sprintf("reached only when %s[name] is %s (test at %s): a name configured for both routes lands in one list only", other.set, which, ifPos(m, ts.ifi)))
				}
			}
		}
		if len(problems) == 0 {
			r.ok("C45.R2", key, m.Pos(app.Pos()), "")
		} else {
			r.viol("C45.R2", key, m.Pos(app.Pos()), strings.Join(problems, "; "))
		}
	}
	// sets are built from the like-named configuration lists
	if bs := needFn(m, r, "C45.R2", pkgIdoc, "buildSegmentSets"); bs != nil {
		for _, rt := range routes {
			key := "segmentSets." + rt.set + " is built from cfg." + rt.cfg
			okSet, n := false, 0
			for _, b := range bs.Blocks {
				for _, in := range b.Instrs {
					st, ok := in.(*ssa.Store)
					if !ok {
						continue
					}
					fa, ok := st.Addr.(*ssa.FieldAddr)
					if !ok {
						continue
					}
					if _, f, _, ok := fieldAddrInfo(fa); !ok || f != rt.set {
						continue
					}
					n++
					if call, ok := strip(st.Val).(*ssa.Call); ok && strings.HasSuffix(calleeName(&call.Call), ".sliceToSet") {
						if _, cf, _, ok := fieldOf(call.Call.Args[0]); ok && cf == rt.cfg {
							okSet = true
						}
					}
				}
			}
			if okSet && n == 1 {
				r.ok("C45.R2", key, m.Pos(bs.Pos()), "")
			} else {
				r.viol("C45.R2", key, m.Pos(bs.Pos()), fmt.Sprintf("%d assignments; expected one, from sliceToSet(cfg.%s)", n, rt.cfg))
			}
		}
	}
	// the routing predicate consults all four sets: the function called where a frame's Fields map is
	// created, or — when the disjunction is written in line — a membership test of every set from
	// whose positive edge the creation is reached
	{
		key := "isRouted consults all four sets (every routed segment collects fields)"
		var creations []*ssa.Store
		for _, b := range fn.Blocks {
			for _, in := range b.Instrs {
				st, ok := in.(*ssa.Store)
				if !ok {
					continue
				}
				fa, ok := st.Addr.(*ssa.FieldAddr)
				if !ok {
					continue
				}
				if t, f, _, ok := fieldAddrInfo(fa); ok && f == "Fields" && strings.HasSuffix(t, "segmentFrame") {
					if _, isMk := strip(st.Val).(*ssa.MakeMap); isMk {
						creations = append(creations, st)
					}
				}
			}
		}
		seen := map[string]bool{}
		var where ssa.Instruction
		for _, st := range creations {
			where = st
			for _, b := range fn.Blocks {
				ifi, ok := b.Instrs[len(b.Instrs)-1].(*ssa.If)
				if !ok {
					continue
				}
				for si, truth := range []bool{true, false} {
					l := litOf(ifi.Cond, truth)
					if l.Neg || l.Op != token.ILLEGAL {
						continue
					}
					var sets []string
					switch x := strip(l.X).(type) {
					case *ssa.Call:
						if pf, _ := calleeOf(&x.Call); pf != nil {
							sets = setsConsulted(pf)
						}
					case *ssa.Lookup:
						if _, f, _, ok := fieldOf(x.X); ok {
							sets = []string{f}
						}
					}
					if len(sets) == 0 {
						continue
					}
					if found, _, _ := search(SearchSpec{Start: Loc{b.Succs[si], 0}, Target: func(t ssa.Instruction) bool { return t == ssa.Instruction(st) }, Blocker: isTok}); found {
						for _, s := range sets {
							seen[s] = true
						}
					}
				}
			}
		}
		var missing []string
		for _, rt := range routes {
			if !seen[rt.set] {
				missing = append(missing, rt.set)
			}
		}
		switch {
		case len(creations) == 0:
			r.unresolved("C45.R2", key, "no creation of a frame's Fields map found")
		case len(missing) == 0:
			r.ok("C45.R2", key, m.Pos(where.Pos()), "")
		default:
			r.viol("C45.R2", key, m.Pos(where.Pos()), "not consulted: "+strings.Join(missing, ", "))
		}
	}

	// ---- R3
	{
		var ups []*ssa.MapUpdate
		for _, b := range fn.Blocks {
			for _, in := range b.Instrs {
				if mu, ok := in.(*ssa.MapUpdate); ok {
					if _, f, _, ok := fieldOf(mu.Map); ok && f == "Fields" {
						ups = append(ups, mu)
					}
				}
			}
		}
		key := "the only Fields write goes through the parent frame (top of the stack after the pop), keyed by the child's name"
		if len(ups) != 1 {
			r.viol("C45.R3", key, m.Pos(fn.Pos()), fmt.Sprintf("%d writes into a Fields map", len(ups)))
		} else {
			mu := ups[0]
			var problems []string
			// map is Fields of &stack'[len(stack')-1] where stack' is the popped slice
			_, _, base, _ := fieldOf(mu.Map)
			ia, ok := strip(base).(*ssa.IndexAddr)
			if !ok {
				problems = append(problems, "the map is not reached through an element of the stack")
			} else {
				sl, isSl := strip(ia.X).(*ssa.Slice)
				if !isSl || !strings.HasSuffix(sl.Type().String(), "segmentFrame") || sl.High == nil {
					problems = append(problems, "the frame is not taken from the stack after the pop")
				}
				if terms, k := flattenSum(ia.Index); !(len(terms) == 1 && k == -1) {
					problems = append(problems, "the frame index is "+describe(ia.Index)+", not len-1 (the direct parent)")
				} else if lc, ok := strip(terms[0]).(*ssa.Call); !ok || calleeName(&lc.Call) != "builtin.len" || strip(lc.Call.Args[0]) != strip(ia.X) {
					problems = append(problems, "the frame index is not len(stack)-1 of the popped stack")
				}
			}
			// key = closing frame's Name, value = TrimSpace(frame.Value)
			if _, kf, _, ok := fieldOf(mu.Key); !ok || kf != "Name" {
				problems = append(problems, "the key is "+describe(mu.Key)+", not the closing element's name")
			}
			tc, isTrim := strip(mu.Value).(*ssa.Call)
			if !isTrim || calleeName(&tc.Call) != "strings.TrimSpace" {
				problems = append(problems, "the value is "+describe(mu.Value)+", not the trimmed text")
			} else if _, vf, _, ok := fieldOf(tc.Call.Args[0]); !ok || vf != "Value" {
				problems = append(problems, "the trimmed text is not the closing element's own text")
			}
			if len(problems) == 0 {
				r.ok("C45.R3", key, m.Pos(mu.Pos()), "")
			} else {
				r.viol("C45.R3", key, m.Pos(mu.Pos()), strings.Join(problems, "; "))
			}
			// completeness: a direct child is left out of its parent's Fields only because its text is
			// empty, there is no parent, or the parent collects no fields — nothing else may divert
			if len(writers["Segments"]) == 1 && writers["Segments"][0].app != nil {
				segApp := writers["Segments"][0].app
				var pop *ssa.Slice
				for _, b := range fn.Blocks {
					if !endB.Dominates(b) {
						continue
					}
					for _, in := range b.Instrs {
						if sl, ok := in.(*ssa.Slice); ok && strings.HasSuffix(sl.Type().String(), "segmentFrame") && sl.High != nil {
							pop = sl
						}
					}
				}
				allowedSkip := func(from *ssa.BasicBlock, succ int) bool {
					ifi, ok := from.Instrs[len(from.Instrs)-1].(*ssa.If)
					if !ok {
						return false
					}
					bo, ok := ifi.Cond.(*ssa.BinOp)
					if !ok {
						return false
					}
					skipOn := func(trueWhenPresent bool) bool {
						// the edge on which the condition for recording is false
						if trueWhenPresent {
							return succ == 1
						}
						return succ == 0
					}
					// text test
					if strip(bo.X) == strip(mu.Value) || strip(bo.Y) == strip(mu.Value) {
						if cs, ok := constString(bo.Y); ok && cs == "" {
							return skipOn(bo.Op == token.NEQ)
						}
					}
					// parent exists: len(stack') > 0 / != 0 / == 0
					if lc, ok := strip(bo.X).(*ssa.Call); ok && calleeName(&lc.Call) == "builtin.len" && pop != nil && strip(lc.Call.Args[0]) == ssa.Value(pop) {
						if k, ok := constInt(bo.Y); ok && k == 0 {
							switch bo.Op {
							case token.GTR, token.NEQ:
								return skipOn(true)
							case token.EQL:
								return skipOn(false)
							}
						}
					}
					// the parent collects fields: parent.Fields != nil, parent being an element of the popped stack
					if _, f, base, ok := fieldOf(bo.X); ok && f == "Fields" && isNilConst(bo.Y) {
						if ia, ok := strip(base).(*ssa.IndexAddr); ok && pop != nil && strip(ia.X) == ssa.Value(pop) {
							return skipOn(bo.Op == token.NEQ)
						}
					}
					return false
				}
				keyC := "a child with non-empty text is left out of its parent's Fields only when there is no parent or the parent collects none"
				if pop == nil {
					r.unresolved("C45.R3", keyC, "pop not found")
				} else if found, _, path := search(SearchSpec{Start: nextLoc(pop),
					Target:  func(t ssa.Instruction) bool { return t == ssa.Instruction(segApp) },
					Blocker: func(t ssa.Instruction) bool { return t == ssa.Instruction(mu) },
					Removed: allowedSkip}); found {
					r.viol("C45.R3", keyC, m.Pos(mu.Pos()), "the Fields write can be skipped for another reason: "+renderPath(m, path))
				} else {
					r.ok("C45.R3", keyC, m.Pos(mu.Pos()), "")
				}
			}
			g := Guard{cl(atomFn("trimmed text != \"\"", func(l Lit) bool {
				s, ok := constString(l.Y)
				if !ok || s != "" {
					return false
				}
				if strip(l.X) != strip(mu.Value) {
					return false
				}
				return (l.Op == token.NEQ && !l.Neg) || (l.Op == token.EQL && l.Neg)
			}))}
			guardVerdict(m, r, "C45.R3", "a field is recorded only for non-empty trimmed text", fn, mu, g)
		}
		// a frame gets a Fields map only under isRouted(name)
		key = "a frame collects fields only when its name is routed"
		n := 0
		for _, b := range fn.Blocks {
			for _, in := range b.Instrs {
				st, ok := in.(*ssa.Store)
				if !ok {
					continue
				}
				fa, ok := st.Addr.(*ssa.FieldAddr)
				if !ok {
					continue
				}
				if t, f, _, ok := fieldAddrInfo(fa); !ok || f != "Fields" || !strings.HasSuffix(t, "segmentFrame") {
					continue
				}
				if _, isMk := strip(st.Val).(*ssa.MakeMap); !isMk {
					continue
				}
				n++
				// routed = a positive answer of the routing predicate (a local function that consults
				// the sets), or of a membership test of one of the four sets written in line
				atoms := []Atom{atomFn("isRouted(name)", func(l Lit) bool {
					if l.Neg || l.Op != token.ILLEGAL {
						return false
					}
					call, ok := strip(l.X).(*ssa.Call)
					if !ok {
						return false
					}
					pf, _ := calleeOf(&call.Call)
					return pf != nil && len(setsConsulted(pf)) > 0
				})}
				for _, rt := range routes {
					set := rt.set
					atoms = append(atoms, atomFn(set+"[name]", func(l Lit) bool {
						if l.Neg || l.Op != token.ILLEGAL {
							return false
						}
						lk, ok := strip(l.X).(*ssa.Lookup)
						if !ok {
							return false
						}
						_, f, _, okf := fieldOf(lk.X)
						return okf && f == set
					}))
				}
				g := Guard{cl(atoms...)}
				guardVerdict(m, r, "C45.R3", key, fn, st, g)
			}
		}
		if n == 0 {
			r.unresolved("C45.R3", key, "no Fields map creation found")
		}
	}
}


// copySource: a local that is written exactly once, as a whole, with the value loaded from another
// local (a by-value parameter of a folded helper, `x := y`) and never modified field by field holds
// that other local's value; the original local is returned.
func copySource(al *ssa.Alloc) *ssa.Alloc {
	for depth := 0; depth < 4; depth++ {
		if al.Referrers() == nil {
			return al
		}
		var src *ssa.Alloc
		n := 0
		for _, ref := range *al.Referrers() {
			switch x := ref.(type) {
			case *ssa.Store:
				if x.Addr == ssa.Value(al) {
					n++
					if u, ok := x.Val.(*ssa.UnOp); ok && u.Op == token.MUL {
						src, _ = u.X.(*ssa.Alloc)
					}
				}
			case *ssa.FieldAddr:
				if x.Referrers() != nil {
					for _, r2 := range *x.Referrers() {
						if st, ok := r2.(*ssa.Store); ok && st.Addr == ssa.Value(x) {
							n += 2 // modified in place: not a plain copy
						}
					}
				}
			}
		}
		if n != 1 || src == nil {
			return al
		}
		al = src
	}
	return al
}

func copySourceV(v ssa.Value) ssa.Value {
	if al, ok := v.(*ssa.Alloc); ok {
		return copySource(al)
	}
	return v
}


// setsConsulted: the segmentSets fields a function looks a key up in.
func setsConsulted(f *ssa.Function) []string {
	seen := map[string]bool{}
	for _, b := range f.Blocks {
		for _, in := range b.Instrs {
			if lk, ok := in.(*ssa.Lookup); ok {
				if t, fld, _, ok := fieldOf(lk.X); ok && strings.HasSuffix(t, "segmentSets") {
					seen[fld] = true
				}
			}
		}
	}
	var out []string
	for s := range seen {
		out = append(out, s)
	}
	sort.Strings(out)
	return out
}
